"""SLIP-0132 registered HD version bytes (transcribed from SLIP-0132's table) and BIP32 defaults."""
# (key type, network, purpose) -> version
TABLE = {
    ('PUB', 'main', 'BIP44'): 0x0488B21E,  # xpub
    ('PRV', 'main', 'BIP44'): 0x0488ADE4,  # xprv
    ('PUB', 'main', 'BIP49'): 0x049D7CB2,  # ypub
    ('PRV', 'main', 'BIP49'): 0x049D7878,  # yprv
    ('PUB', 'main', 'BIP84'): 0x04B24746,  # zpub
    ('PRV', 'main', 'BIP84'): 0x04B2430C,  # zprv
    ('PUB', 'test', 'BIP44'): 0x043587CF,  # tpub
    ('PRV', 'test', 'BIP44'): 0x04358394,  # tprv
    ('PUB', 'test', 'BIP49'): 0x044A5262,  # upub
    ('PRV', 'test', 'BIP49'): 0x044A4E28,  # uprv
    ('PUB', 'test', 'BIP84'): 0x045F1CF6,  # vpub
    ('PRV', 'test', 'BIP84'): 0x045F18BC,  # vprv
}
LABELS = {
    0x0488B21E: 'xpub', 0x0488ADE4: 'xprv', 0x049D7CB2: 'ypub', 0x049D7878: 'yprv', 0x04B24746: 'zpub',
    0x04B2430C: 'zprv', 0x043587CF: 'tpub', 0x04358394: 'tprv', 0x044A5262: 'upub', 0x044A4E28: 'uprv',
    0x045F1CF6: 'vpub', 0x045F18BC: 'vprv',
}
PURPOSE = {'BIP44': 44, 'BIP49': 49, 'BIP84': 84}
