"""RIPEMD-160 specification (Dobbertin, Bosselaers, Preneel 1996): generating structure of the tables."""
import math

RHO = [7, 4, 13, 1, 10, 6, 15, 3, 12, 0, 9, 5, 2, 14, 11, 8]
PI = [(9 * i + 5) % 16 for i in range(16)]
# shift amounts, indexed [round][message word index]
SHIFT = [
    [11, 14, 15, 12, 5, 8, 7, 9, 11, 13, 14, 15, 6, 7, 9, 8],
    [12, 13, 11, 15, 6, 9, 9, 7, 12, 15, 11, 13, 7, 8, 7, 7],
    [13, 15, 14, 11, 7, 7, 6, 8, 13, 14, 13, 12, 5, 5, 6, 9],
    [14, 11, 12, 14, 8, 6, 5, 5, 15, 12, 15, 14, 9, 9, 8, 6],
    [15, 12, 13, 13, 9, 5, 8, 6, 14, 11, 12, 11, 8, 6, 5, 5],
]
INIT = (0x67452301, 0xefcdab89, 0x98badcfe, 0x10325476, 0xc3d2e1f0)


def _compose(f, g):
    return [f[g[i]] for i in range(16)]


def ml():
    out, cur = [], list(range(16))
    for r in range(5):
        out += cur
        cur = _compose(RHO, cur)
    return out


def mr():
    out, cur = [], list(PI)
    for r in range(5):
        out += cur
        cur = _compose(RHO, cur)
    return out


def rl():
    m = ml()
    return [SHIFT[j >> 4][m[j]] for j in range(80)]


def rr():
    m = mr()
    return [SHIFT[j >> 4][m[j]] for j in range(80)]


def _icbrt(n):
    x = int(round(n ** (1 / 3)))
    while x ** 3 > n:
        x -= 1
    while (x + 1) ** 3 <= n:
        x += 1
    return x


def kl():
    # 0, floor(2^30 * sqrt(2,3,5,7))
    return [0] + [math.isqrt(p << 60) for p in (2, 3, 5, 7)]


def kr():
    # floor(2^30 * cbrt(2,3,5,7)), 0
    return [_icbrt(p << 90) for p in (2, 3, 5, 7)] + [0]


M32 = 0xffffffff


def f(i, x, y, z):
    if i == 0:
        return x ^ y ^ z
    if i == 1:
        return (x & y) | (~x & M32 & z)
    if i == 2:
        return (x | (~y & M32)) ^ z
    if i == 3:
        return (x & z) | (y & ~z & M32)
    return x ^ (y | (~z & M32))
