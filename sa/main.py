"""Entry point: ./vcheck <property id> [--tier quick|thorough] [--explain file] [--repo path]"""
from __future__ import annotations

import argparse
import importlib
import json
import os
import sys
import traceback


# library features the evaluator has no summary for: a function that uses one is evaluated with unknown values in the
# middle, and a difference found behind an unknown value is not a reliable difference
UNMODELLED_LIBS = ('functools.', 'operator.', 'itertools.', 'contextlib.', 'collections.')
MODELLED = {'functools.wraps', 'functools.lru_cache', 'functools.cache', 'functools.partial', 'itertools.repeat', 'collections.abc.Generator',
            'collections.abc.Iterator', 'collections.namedtuple', 'collections.OrderedDict'}


def unmodelled_library_uses(prog, quals):
    import ast
    out = set()
    for q in quals:
        fi = prog.functions.get(q)
        if fi is None:
            continue
        imps = fi.module.imports
        nodes = list(ast.walk(fi.node))
        for n in nodes:
            dotted = None
            if isinstance(n, ast.Name) and isinstance(n.ctx, ast.Load) and n.id in imps and n.id not in fi.params:
                imp = imps[n.id]
                dotted = imp[1] if imp[0] == 'module' else '%s.%s' % (imp[1], imp[2])
            elif isinstance(n, ast.Attribute) and isinstance(n.value, ast.Name) and n.value.id in imps and imps[n.value.id][0] == 'module':
                dotted = '%s.%s' % (imps[n.value.id][1], n.attr)
            if dotted and dotted.startswith(UNMODELLED_LIBS) and dotted not in MODELLED and dotted.rstrip('.') not in (
                    'functools', 'operator', 'itertools', 'contextlib', 'collections'):
                out.add(dotted)
            if dotted in ('dataclasses.field', 'dataclasses.replace', 'dataclasses.asdict', 'dataclasses.astuple', 'struct.error'):
                out.add(dotted)         # (struct.error: when struct.pack refuses a value is not part of the struct summaries)
            # record helpers and class machinery the evaluator does not model
            if isinstance(n, ast.Attribute) and n.attr in ('_make', '_fields', '__dict__', '__subclasses__'):
                out.add('.%s' % n.attr)
    # class machinery anywhere in the modules the consulted functions live in (the evaluator never calls these hooks, so it
    # does not see a class that depends on them the way Python does)
    mods = {prog.functions[q].module for q in quals if q in prog.functions}
    for c_ in prog.classes.values():
        if c_.module not in mods:
            continue
        for dn in ('__init_subclass__', '__post_init__', '__get__', '__set__', '__set_name__', '__getattr__', '__getattribute__',
                   '__setattr__', '__class_getitem__', '__new__'):
            if dn in c_.methods:
                out.add('%s.%s' % (c_.name, dn))
        for st in c_.node.body:
            for n in ast.walk(st) if not isinstance(st, ast.FunctionDef) else []:
                if isinstance(n, ast.Call) and ast.unparse(n.func).split('.')[-1] == 'field' and any(
                        kw.arg in ('default_factory', 'init', 'compare') for kw in n.keywords):
                    out.add('dataclasses.field in %s' % c_.name)
    return sorted(out)


def _downgrade_for_unmodelled_libraries(ctx, prog, consulted):
    uses = unmodelled_library_uses(prog, consulted)
    if not uses:
        return
    from . import report as _rp
    known = _rp.load_known()
    for ob in ctx.obligations:
        if ob.verdict == 'VIOLATED' and not ob.rule.endswith('.PURE'):
            if _rp.match_known(known, ctx.pid, ob) is not None:
                continue            # a recorded known finding stays what it is
            ob.verdict = 'UNDECIDED'
            ob.details.append('the functions this property consults use %s, which the evaluator has no summary for: values behind '
                              'such a call are unknown to it, so the differences listed above are not reported as violations'
                              % ', '.join(uses))


def main(argv=None):
    if os.environ.get('PYTHONHASHSEED') != '0' and argv is None:
        # deterministic set order (see vcheck): re-execute with the fixed seed when started some other way
        os.environ['PYTHONHASHSEED'] = '0'
        os.execv(sys.executable, [sys.executable, '-B', '-m', 'sa.main'] + sys.argv[1:])
    ap = argparse.ArgumentParser(prog='vcheck')
    ap.add_argument('pid')
    ap.add_argument('--tier', default=os.environ.get('VERIF_TIER', 'quick'), choices=['quick', 'thorough'])
    ap.add_argument('--repo', default=os.environ.get('VERIF_REPO', '/repo'))
    ap.add_argument('--explain')
    ap.add_argument('--replay')
    ap.add_argument('-v', '--verbose', action='store_true')
    a = ap.parse_args(argv)
    if a.explain or a.replay:
        with open(a.explain or a.replay) as f:
            print(json.dumps(json.load(f), indent=2))
        return 0
    # wall-clock watchdog: an analysis that does not finish is UNDECIDED (exit 2), never a hang
    import signal

    def _alarm(signum, frame):
        print('ANALYSIS-ERROR property=%s rule=ENGINE reason=wall-clock limit reached; analysis did not terminate' % a.pid.upper())
        sys.stdout.flush()
        os._exit(2)
    try:
        signal.signal(signal.SIGALRM, _alarm)
        signal.alarm(int(os.environ.get('VERIF_TIME_LIMIT', '3000' if a.tier == 'thorough' else '420')))
    except Exception:
        pass
    os.environ['VERIF_REPO'] = a.repo
    seed = int(os.environ.get('VERIF_SEED', '0') or 0)
    from . import loader, report
    loader.REPO = a.repo
    pid = a.pid.upper()
    ctx = None
    try:
        prog = loader.Program(a.repo)
        ctx = report.Context(pid, a.tier, prog, seed)
        mod = importlib.import_module('sa.props.%s' % pid)
        st = prog.stats()
        with ctx.obligation('LOADER.FLOOR', 'package') as ob:
            ok = st['modules'] >= 15 and st['functions'] >= 180
            if not ok:
                ob.undecided('loader floor not met: %s' % st)
            else:
                ob.evaluations += 1
                ob.saw('btc_hd_wallet/')
        from . import evalr as _ev
        _ev.Evaluator.TRACE.clear()
        from .props.purity import check_purity
        try:
            mod.run(ctx)
        except loader.AnalysisError as e:
            # a rule lost its anchor or met a structure it does not know: that rule is UNDECIDED, but what can still be
            # said is said - the purity precondition over everything consulted so far and over every function of the
            # files the property is anchored in (a memoised rewrite is reported as such, not only as "not analysable")
            with ctx.obligation('ENGINE.ANCHOR', 'structure expected by the rules of %s' % pid) as ob:
                ob.undecided('%s' % e)
            extra = set()
            try:
                import json as _json
                with open(os.path.join(report.VERIF, 'properties.jsonl')) as f:
                    for line in f:
                        d = _json.loads(line)
                        if d.get('id') == pid:
                            files = set(d.get('anchors', {}).get('files', []))
                            extra = {q for q, fi in prog.functions.items() if fi.module.relpath in files}
            except Exception:
                pass
            check_purity(ctx, pid, sorted(set(_ev.Evaluator.TRACE) | extra))
            code, lines = ctx.finish()
            for l in lines:
                print(l)
            return code
        check_purity(ctx, pid, sorted(_ev.Evaluator.TRACE))
        _downgrade_for_unmodelled_libraries(ctx, prog, sorted(_ev.Evaluator.TRACE))
        if a.tier == 'thorough' and hasattr(mod, 'thorough'):
            mod.thorough(ctx)
        if a.tier == 'thorough' and not os.environ.get('VERIF_NO_MUTANTS'):
            pre_ok = all(o.verdict != 'UNDECIDED' for o in ctx.obligations)
            if pre_ok:
                from . import mutate
                res = mutate.run_thorough(pid, a.repo, seed)
                ctx.extra['sensitivity_analysis'] = res
                with ctx.obligation('THOROUGH.SENSITIVITY', 'site mutants of the consulted functions') as ob:
                    ob.evaluations += res['mutants_analysed']
                    ob.saw('%d functions consulted by the analysis' % len(res['functions_consulted']))
                    ob.note('mutants: %s (generated %d); survivors are equivalent edits or blind spots, listed in the evidence'
                            % (res['summary'], res['mutants_generated']))
                    if res['mutants_analysed'] == 0 or res['summary'].get('killed', 0) == 0:
                        ob.undecided('no site mutant of the consulted functions changes the verdict: the check is insensitive')
        code, lines = ctx.finish()
    except Exception as e:      # never let a traceback look like a violation
        print('ANALYSIS-ERROR property=%s rule=ENGINE reason=%s: %s' % (pid, type(e).__name__, e))
        if a.verbose:
            traceback.print_exc()
        else:
            print('  ' + ' <- '.join(traceback.format_exc().strip().splitlines()[-6:]))
        return 2
    for l in lines:
        print(l)
    if a.verbose:
        for ob in ctx.obligations:
            print('  %-9s %-22s %-40s %s %s' % (ob.verdict, ob.rule, ob.construct, ob.config or '',
                                                ' | '.join(ob.details + ob.notes)[:300]))
    return code


if __name__ == '__main__':
    sys.exit(main())
