"""Summary table of externals (stdlib, ecdsa, pysecp256k1) and of the loop-bodied package helpers that the
term evaluator treats as named operators (their interiors are checked by their own properties).
Each entry states the documented value and the raises-unless contract as a must-fact."""
from __future__ import annotations

import ast
import string

from . import terms as T

BUILTINS = {'len', 'int', 'str', 'bytes', 'bool', 'isinstance', 'type', 'range', 'zip', 'dict', 'list', 'tuple',
            'enumerate', 'bin', 'hex', 'ord', 'chr', 'any', 'all', 'divmod', 'min', 'max', 'sum', 'sorted', 'open',
            'print', 'repr', 'abs', 'set', 'object', 'ValueError', 'RuntimeError', 'Exception', 'NameError',
            'ImportError', 'IndexError', 'SyntaxError', 'KeyError', 'TypeError', 'AssertionError', 'float',
            'reversed', 'map', 'filter', 'iter', 'next', 'slice', 'getattr', 'setattr', 'hasattr', 'id', 'hash', 'pow',
            'round', 'bytearray', 'memoryview', 'frozenset', 'property', 'classmethod', 'staticmethod', 'super',
            'NotImplementedError', 'OverflowError', 'StopIteration', 'input', 'vars', 'globals', 'locals', 'eval',
            'exec', 'compile', 'callable', 'format', 'slice', '__name__'}

SECP_CURVE = T.ext('ecdsa.curves.SECP256k1')
MUTATOR_NAMES = {'append', 'extend', 'insert', 'pop', 'remove', 'clear', 'update', 'add', 'sort', 'reverse', 'setdefault',
                 'write', 'writelines'}


def ext_value(dotted):
    if dotted in ('ecdsa.ellipticcurve.INFINITY',):
        return T.INFINITY
    if dotted == 'ecdsa.curves.SECP256k1.baselen':
        return T.const(32)
    if dotted == 'sys.argv':
        return T.sym('sys.argv', type='list')
    if dotted == 'os.linesep':
        return T.sym('os.linesep', type='str')
    if dotted == 'os.W_OK':
        return T.sym('os.W_OK', type='int')
    if dotted == 'builtins.__name__':
        return T.sym('__name__', type='str')
    return T.ext(dotted)


def _struct_layout(fmt):
    """('little'|'big', [(size, signed)]) for struct formats made of fixed-size integers with an explicit byte order"""
    import re as _re
    if not fmt or fmt[0] not in '<>!':
        return None
    order = 'little' if fmt[0] == '<' else 'big'
    sizes = {'B': (1, False), 'b': (1, True), 'H': (2, False), 'h': (2, True), 'I': (4, False), 'i': (4, True), 'L': (4, False),
             'l': (4, True), 'Q': (8, False), 'q': (8, True)}
    fields = []
    for cnt, ch in _re.findall(r'(\d*)([A-Za-z?])', fmt[1:].replace(' ', '')):
        if ch == 's':
            fields.append((int(cnt) if cnt else 1, 'bytes'))
            continue
        if ch == 'x':
            fields.append((int(cnt) if cnt else 1, 'pad'))
            continue
        if ch not in sizes:
            return None
        fields += [sizes[ch]] * (int(cnt) if cnt else 1)
    if ''.join('%s%s' % (c, ch) for c, ch in _re.findall(r'(\d*)([A-Za-z?])', fmt[1:].replace(' ', ''))) != fmt[1:].replace(' ', ''):
        return None
    return order, fields


def _valid_sk(x):
    return T.raw_op('VALID_SK', x)


def _point_of_coordinate_encoding(b):
    """(02 | 03 by the parity of y) || ser256(x) written out by hand from a point's coordinates is that point's compressed
    encoding: returns the point, or None"""
    def is_parity(c, P):
        if T.is_op(c, 'BOOL') and len(c) == 3:
            c = c[2]
        return (T.is_op(c, 'BITAND') and set(c[2:]) == {T.const(1), T.raw_op('PY', P)}) or \
            (T.is_op(c, 'MOD') and c[2] == T.raw_op('PY', P) and c[3] == T.const(2))
    if T.tag(b) == 'phi':
        # the case analysis on the parity of y may have been lifted out of the concatenation
        alts = []
        for x in (b[2], b[3]):
            if T.is_op(x, 'CAT') and len(x) == 4 and T.is_op(x[3], 'SER') and x[3][3] == T.const(32) and x[3][4] == T.const('big') \
                    and T.is_op(x[3][2], 'PX') and x[2] in (T.const(b'\x02'), T.const(b'\x03')):
                alts.append((x[2], x[3][2][2]))
        if len(alts) == 2 and alts[0][1] == alts[1][1] and alts[0][0] == T.const(b'\x03') and alts[1][0] == T.const(b'\x02') \
                and is_parity(b[1], alts[0][1]):
            return alts[0][1]
        return None
    if not (T.is_op(b, 'CAT') and len(b) == 4):
        return None
    pre, xs = b[2], b[3]
    if not (T.is_op(xs, 'SER') and xs[3] == T.const(32) and xs[4] == T.const('big') and T.is_op(xs[2], 'PX')):
        return None
    P = xs[2][2]
    if T.tag(pre) == 'phi' and {pre[2], pre[3]} == {T.const(b'\x02'), T.const(b'\x03')}:
        c = pre[1]
        if T.is_op(c, 'BOOL') and len(c) == 3:
            c = c[2]
        odd_first = pre[2] == T.const(b'\x03')
        parity = (T.is_op(c, 'BITAND') and set(c[2:]) == {T.const(1), T.raw_op('PY', P)}) or \
            (T.is_op(c, 'MOD') and c[2] == T.raw_op('PY', P) and c[3] == T.const(2))
        if parity and odd_first:
            return P
    return None


def _not_a_sec_encoding(b):
    """bytes whose leading byte is known and is not a SEC prefix (02 / 03 compressed, 04 uncompressed; the raw 64-byte form
    python-ecdsa also accepts has no prefix at all): e.g. the private payload 0x00 || k handed to a public-key parser"""
    first = None
    if T.is_const(b) and isinstance(b[1], bytes) and b[1]:
        first = b[1][0]
    elif T.is_op(b, 'CAT') and len(b) > 2 and T.is_const(b[2]) and isinstance(b[2][1], bytes) and b[2][1]:
        first = b[2][1][0]
    n = T.length_of(b)
    return first is not None and n in (33, 65) and first not in ((2, 3) if n == 33 else (4,))


def _contract(ev, fr, facts, value):
    """A library call that raises unless `facts` hold.  Normally the facts become must-facts of the continuation (the
    raising path leaves the function); inside a try body whose handlers may catch the library's exception the two
    outcomes are kept apart as an explicit case analysis."""
    if getattr(ev, 'explicit_contracts', 0):
        cond = T.TRUE
        for f in facts:
            cond = T.and_(cond, f)
        return T.phi(cond, value, T.raise_('LibraryError'))
    for f in facts:
        fr.facts = fr.facts.add(f)
    return value


class UnmodelledKeyword(Exception):
    pass


def _kw(args, kwargs, names, defaults=None):
    """bind positional/keyword arguments of an external by name; a keyword the summary does not model is never
    silently ignored"""
    for k in kwargs:
        if k not in names:
            raise UnmodelledKeyword(k)
    out = {}
    defaults = defaults or {}
    for n, a in zip(names, args):
        out[n] = a
    for k, v in kwargs.items():
        out[k] = v
    for n in names:
        if n not in out:
            out[n] = defaults.get(n, None)
    return out


def to_str(ev, x, fr):
    k = T.tag(x)
    if k == 'raise':
        return x
    if k == 'const':
        v = x[1]
        if isinstance(v, (str, int, float, bool)) or v is None:
            return T.const(str(v))
        return T.const(str(v))
    if k == 'phi':
        return T.phi(x[1], to_str(ev, x[2], fr), to_str(ev, x[3], fr))
    if k == 'obj' or (k == 'sym' and T.sym_meta(x, 'cls')):
        cq = x[1] if k == 'obj' else T.sym_meta(x, 'cls')
        ci = ev.p.classes.get(cq) or ev.p.classes.get('btc_hd_wallet.' + cq)
        if ci is not None:
            m = ci.find_method('__str__') or ci.find_method('__repr__')
            if m is not None:
                v, f2 = ev._invoke(m, [x], {}, fr.facts, fr.depth + 1)
                fr.facts = f2
                return v
    if T.type_of(x) == 'str':
        return x
    return T.raw_op('STR', x)


def fmt(ev, f, args, kwargs, fr):
    """'...{}...'.format(*args) for constant templates with plain positional placeholders"""
    if not (T.is_const(f) and isinstance(f[1], str)):
        return T.raw_op('FORMAT', f, *args)
    try:
        parts = list(string.Formatter().parse(f[1]))
    except ValueError:
        return T.raise_('ValueError')
    out = []
    auto = 0
    for lit, field, spec, conv in parts:
        if lit:
            out.append(T.const(lit))
        if field is None:
            continue
        if spec or conv:
            return T.raw_op('FORMAT', f, *args)
        if field == '':
            idx = auto
            auto += 1
        elif field.isdigit():
            idx = int(field)
        elif field in kwargs:
            out.append(to_str(ev, kwargs[field], fr))
            continue
        else:
            return T.raw_op('FORMAT', f, *args)
        if idx >= len(args):
            return T.raise_('IndexError')
        out.append(to_str(ev, args[idx], fr))
    return T.cat(*out) if out else T.const('')


def _isinstance(ev, x, c):
    if T.tag(c) == 'tuple':
        r = T.FALSE
        for cc in c[1]:
            r = T.or_(r, _isinstance(ev, x, cc))
        return r
    if T.tag(x) == 'phi':
        return T.phi(x[1], _isinstance(ev, x[2], c), _isinstance(ev, x[3], c))
    tx = T.type_of(x)
    if T.tag(c) == 'ext':
        name = c[1].split('.')[-1]
        m = {'int': ('int', 'bool'), 'str': ('str',), 'bytes': ('bytes',), 'bool': ('bool',), 'list': ('list',),
             'tuple': ('tuple',), 'dict': ('dict',), 'float': ('float',)}
        if name == 'BytesIO':
            if T.is_op(x, 'STREAM') or tx == 'stream':
                return T.TRUE
            if tx is not None:
                return T.FALSE
        if name in m and tx is not None:
            if tx.startswith('obj:') and ev.p.classes.get(tx[4:]) is not None and ev.p.classes[tx[4:]].is_enum:
                return T.FALSE
            return T.const(tx in m[name])
        return T.raw_op('ISINSTANCE', x, c)
    if T.tag(c) == 'cls':
        if tx and tx.startswith('obj:'):
            ci = ev.p.classes.get(tx[4:])
            if ci is not None:
                return T.const(any(k.qual == c[1] for k in ci.mro()))
        if T.tag(x) == 'sym' and T.sym_meta(x, 'cls'):
            q = T.sym_meta(x, 'cls')
            ci = ev.p.classes.get(q) or ev.p.classes.get('btc_hd_wallet.' + q)
            if ci is not None:
                return T.const(any(k.qual == c[1] for k in ci.mro()))
        if tx is not None:
            return T.FALSE
    return T.raw_op('ISINSTANCE', x, c)


def _typeof(ev, x):
    if T.tag(x) == 'phi':
        return T.phi(x[1], _typeof(ev, x[2]), _typeof(ev, x[3]))
    tx = T.type_of(x)
    if tx is None:
        if T.tag(x) == 'sym' and T.sym_meta(x, 'cls'):
            q = T.sym_meta(x, 'cls')
            ci = ev.p.classes.get(q) or ev.p.classes.get('btc_hd_wallet.' + q)
            if ci is not None:
                return T.clsref(ci.qual)
        return T.raw_op('TYPE', x)
    if tx.startswith('obj:'):
        return T.clsref(tx[4:])
    if tx == 'none':
        return T.ext('builtins.NoneType')
    return T.ext('builtins.' + tx)


def _int_cast(ev, args, kwargs, fr):
    if not args:
        return T.const(0)
    x = args[0]
    if T.tag(x) == 'phi':
        return T.phi(x[1], _int_cast(ev, [x[2]] + args[1:], kwargs, fr), _int_cast(ev, [x[3]] + args[1:], kwargs, fr))
    base = args[1] if len(args) > 1 else kwargs.get('base')
    if T.is_const(x) and (base is None or T.is_const(base)):
        try:
            if base is None:
                return T.const(int(x[1]))
            return T.const(int(x[1], base[1]))
        except (ValueError, TypeError):
            return T.raise_('ValueError')
    if T.tag(x) == 'obj':
        ci = ev.p.classes.get(x[1])
        m = ci.find_method('__int__') if ci else None
        if m is not None:
            v, f2 = ev._invoke(m, [x], {}, fr.facts, fr.depth + 1)
            fr.facts = f2
            return v
    if T.tag(x) == 'enum':
        ci = ev.p.classes.get(x[1])
        if ci is not None and any(b.split('.')[-1] in ('IntEnum', 'IntFlag') for c_ in ci.mro() for b in c_.base_names):
            return x[3]         # a member of an IntEnum is its integer value
        return T.raise_('TypeError')
    if base is None and T.type_of(x) == 'int':
        return x
    if base == T.const(16):
        # int(text, 16) of canonical hex text, with or without the 0x prefix int() accepts: the big-endian integer of the bytes
        h = x
        if T.is_op(x, 'CAT') and len(x) == 4 and x[2] in (T.const('0x'), T.const('0X')):
            h = x[3]
        if T.is_op(h, 'HEX') and len(h) == 3:
            return T.int_(h[2], T.const('big'))
    if base is None and T.is_op(x, 'STR') and T.type_of(x[2]) == 'int':
        return x[2]            # int(str(n)) == n
    if base is None:
        return T.raw_op('INTCAST', x)
    return T.raw_op('INTCAST', x, base)


def _bytes_cast(ev, args, kwargs, fr):
    if not args:
        return T.const(b'')
    x = args[0]
    if T.tag(x) == 'phi':
        return T.phi(x[1], _bytes_cast(ev, [x[2]], kwargs, fr), _bytes_cast(ev, [x[3]], kwargs, fr))
    if T.tag(x) == 'obj' or (T.tag(x) == 'sym' and T.sym_meta(x, 'cls')):
        cq = x[1] if T.tag(x) == 'obj' else T.sym_meta(x, 'cls')
        ci = ev.p.classes.get(cq) or ev.p.classes.get('btc_hd_wallet.' + cq)
        m = ci.find_method('__bytes__') if ci else None
        if m is not None:
            v, f2 = ev._invoke(m, [x], {}, fr.facts, fr.depth + 1)
            fr.facts = f2
            return v
        return T.raise_('TypeError')
    if T.is_op(x, 'BARR'):
        return x[2]
    if T.type_of(x) == 'bytes':
        return x
    if T.tag(x) in ('list', 'tuple') and all(T.is_const(i) and isinstance(i[1], int) for i in x[1]):
        try:
            return T.const(bytes(i[1] for i in x[1]))
        except ValueError:
            return T.raise_('ValueError')
    if T.tag(x) in ('list', 'tuple') and x[1] and all(T.type_of(i) in ('int', 'bool') for i in x[1]):
        # bytes((a, b, ...)) of integers: one byte each (ValueError outside 0..255, where the one-byte serialisation
        # refuses with OverflowError - a refusal either way)
        return T.cat(*[T.ser(i, T.const(1), T.const('big')) for i in x[1]])
    if T.is_const(x) and isinstance(x[1], int):
        return T.const(bytes(x[1]))
    return T.raw_op('BYTES', x)


def star_call(ev, callee, args, kwargs, fr, node):
    if callee == T.ext('builtins.range'):
        st = [a for a in args if isinstance(a, tuple) and a and a[0] == 'star']
        if len(args) == 1 and st:
            return T.raw_op('RANGE_STAR', st[0][1])
    return T.opaque('star call')


def ext_call(ev, dotted, args, kwargs, fr, node):
    try:
        return _ext_call(ev, dotted, args, kwargs, fr, node)
    except UnmodelledKeyword as e:
        return T.opaque('keyword %s= of %s is not modelled by the summary table' % (e, dotted))


def _ext_call(ev, dotted, args, kwargs, fr, node):
    name = dotted
    short = dotted.split('.')[-1]
    if dotted in ('bytes.fromhex', 'builtins.bytes.fromhex'):
        return fromhex(args[0])
    if dotted in ('struct.unpack', 'struct.pack') and args and T.is_const(args[0]) and isinstance(args[0][1], (str, bytes)) and not kwargs:
        lay = _struct_layout(args[0][1] if isinstance(args[0][1], str) else args[0][1].decode())
        if lay is not None:
            order, fields = lay
            if dotted == 'struct.unpack' and len(args) == 2:
                out, off = [], 0
                for size, signed in fields:
                    piece = T.slice_(args[1], T.const(off), T.const(off + size))
                    if signed == 'bytes':
                        out.append(piece)
                    elif signed == 'pad':
                        pass
                    else:
                        out.append(T.raw_op('INT_SIGNED', piece, T.const(order)) if signed else T.int_(piece, T.const(order)))
                    off += size
                # unpack refuses a buffer of another length
                fr.facts = fr.facts.add(T.eq(T.len_(args[1]), T.const(off)))
                return T.tup(out)
            if dotted == 'struct.pack' and len(args) == 1 + len([f_ for f_ in fields if f_[1] != 'pad']):
                parts, vals = [], list(args[1:])
                for size, signed in fields:
                    if signed == 'pad':
                        parts.append(T.const(b'\x00' * size))
                        continue
                    v = vals.pop(0)
                    if signed == 'bytes':
                        if T.length_of(v) != size:
                            return T.opaque('struct.pack pads or truncates a bytes field whose length is not known to be %d' % size)
                        parts.append(v)
                    else:
                        parts.append(T.raw_op('SER_SIGNED', v, T.const(size), T.const(order)) if signed else T.ser(v, T.const(size), T.const(order)))
                return T.cat(*parts) if parts else T.const(b'')
    if dotted == 'struct.Struct' and len(args) == 1 and not kwargs and T.is_const(args[0]) and isinstance(args[0][1], (str, bytes)):
        fmt = args[0][1] if isinstance(args[0][1], str) else args[0][1].decode()
        if _struct_layout(fmt) is not None:
            return T.raw_op('STRUCTOBJ', T.const(fmt))
    if dotted == 'struct.calcsize' and len(args) == 1 and T.is_const(args[0]) and isinstance(args[0][1], str) and _struct_layout(args[0][1]):
        return T.const(sum(sz for sz, _ in _struct_layout(args[0][1])[1]))
    if dotted in ('bisect.bisect', 'bisect.bisect_right', 'bisect.bisect_left') and len(args) == 2 and not kwargs:
        items = [x for x in (args[0][1] if T.tag(args[0]) in ('tuple', 'list') else ())]
        if items and all(T.is_const(x) and isinstance(x[1], int) and not isinstance(x[1], bool) for x in items) \
                and [x[1] for x in items] == sorted(x[1] for x in items) and len(items) <= 64:
            # insertion point in a sorted constant table: the number of entries <= x (right) / < x (left)
            x = args[1]
            out = T.const(len(items))
            for i in range(len(items) - 1, -1, -1):
                c = T.lt(x, items[i]) if dotted != 'bisect.bisect_left' else T.not_(T.lt(items[i], x))
                out = T.phi(c, T.const(i), out)
            return out
    if dotted == 'logging.getLogger':
        return T.raw_op('LOGGER')
    if dotted in ('logging.NullHandler', 'logging.StreamHandler') :
        return T.raw_op('LOGHANDLER')
    if dotted in ('logging.debug', 'logging.info', 'logging.warning', 'logging.error', 'logging.critical', 'logging.exception'):
        return T.NONE
    if dotted in ('types.MappingProxyType',) and len(args) == 1 and not kwargs:
        # a read-only view of a mapping: every read sees the mapping itself (writes through the view raise TypeError, and the
        # analysis never needs to write through it)
        return args[0]
    if dotted == 'functools.partial' and args:
        # partial(f, *a, **kw): a callable that calls f with the frozen arguments in front (applied by Evaluator.apply)
        return T.raw_op('PARTIAL', args[0], T.tup(list(args[1:])), T.dct([(T.const(k_), v_) for k_, v_ in sorted(kwargs.items())]))
    if dotted == 'itertools.repeat' and len(args) == 1 and not kwargs:
        return T.raw_op('REPEAT', args[0])
    if dotted in ('weakref.ref', 'weakref.proxy', 'weakref.ReferenceType') and len(args) == 1 and not kwargs:
        # a weak reference: what it yields later depends on whether anything else still holds the referent
        return T.raw_op('WEAKREF', args[0])
    if dotted in ('int.from_bytes', 'builtins.int.from_bytes'):
        a = _kw(args, kwargs, ['bytes', 'byteorder', 'signed'], {'byteorder': T.const('big'), 'signed': T.FALSE})
        if a['signed'] == T.FALSE:
            return T.int_(a['bytes'], a['byteorder'])
        signed_form = T.raw_op('INT_SIGNED', a['bytes'], a['byteorder'])
        if a['signed'] == T.TRUE:
            return signed_form
        return T.phi(T.truth(a['signed']), signed_form, T.int_(a['bytes'], a['byteorder']))
    # ---------------------------------------------------------------- builtins
    if dotted.startswith('builtins.'):
        # a keyword (or extra positional) argument that a summary does not model is never silently dropped
        kw_ok = {'int': {'base'}, 'bytes': {'encoding', 'errors', 'source'}, 'enumerate': {'start', 'iterable'}, 'sorted': {'reverse'},
                 'open': None, 'print': {'file', 'end', 'sep', 'flush'}, 'dict': None, 'getattr': set(), 'slice': set()}
        if kwargs and short not in kw_ok:
            return T.opaque('keyword argument(s) %s of builtin %s are not modelled' % (sorted(kwargs), short))
        if kwargs and kw_ok.get(short) is not None and not set(kwargs) <= kw_ok[short]:
            return T.opaque('keyword argument(s) %s of builtin %s are not modelled' % (sorted(set(kwargs) - kw_ok[short]), short))
        arity = {'len': 1, 'repr': 1, 'bool': 1, 'bin': 1, 'hex': 1, 'ord': 1, 'chr': 1, 'str': 1, 'list': 1, 'tuple': 1, 'set': 1,
                 'frozenset': 1, 'sorted': 1, 'isinstance': 2, 'enumerate': 2}
        if short in arity and len(args) > arity[short]:
            return T.opaque('extra argument(s) of builtin %s are not modelled' % short)
        if short == 'len':
            r = T.len_(args[0])
            if T.is_op(r, 'LEN'):
                # a length the path has already pinned (`if len(chunk) != n: raise` in front): that value
                for f_ in fr.facts:
                    if T.is_op(f_, 'EQ') and len(f_) == 4:
                        if f_[2] == r:
                            return f_[3]
                        if f_[3] == r:
                            return f_[2]
            return r
        if short == 'slice' and 1 <= len(args) <= 3 and not kwargs:
            a = list(args)
            lo, hi, st = (T.NONE, a[0], T.NONE) if len(a) == 1 else (a[0], a[1], a[2] if len(a) == 3 else T.NONE)
            return T.raw_op('SLICEOBJ', lo, hi, st)
        if short == 'getattr' and len(args) in (2, 3) and not kwargs and T.is_const(args[1]) and isinstance(args[1][1], str):
            v = ev.getattr(args[0], args[1][1], fr, node)
            if T.is_op(v, 'ATTR') and T.tag(args[0]) == 'obj':
                # an object whose fields are all known (built by its constructor) simply does not have it
                return args[2] if len(args) == 3 else T.raise_('AttributeError')
            if len(args) == 3 and T.is_op(v, 'ATTR'):
                # attribute of an object of unknown shape, with a default: present or absent is not known
                return T.phi(T.raw_op('HASATTR', args[0], args[1]), v, args[2])
            return v
        if short == 'int':
            return _int_cast(ev, args, kwargs, fr)
        if short == 'str':
            if not args:
                return T.const('')
            return to_str(ev, args[0], fr)
        if short == 'repr':
            return to_str(ev, args[0], fr)
        if short == 'bytes':
            return _bytes_cast(ev, args, kwargs, fr)
        if short == 'bytearray' and len(args) <= 1 and not kwargs:
            inner = _bytes_cast(ev, args, kwargs, fr)
            if T.tag(inner) == 'raise' or T.type_of(inner) != 'bytes':
                return inner if T.tag(inner) == 'raise' else T.opaque('bytearray of a value that is not known to be bytes')
            return T.raw_op('BARR', inner)
        if short == 'memoryview' and len(args) == 1 and not kwargs:
            # a read-only view of bytes: indexing, slicing, len, bytes() and int.from_bytes see the bytes themselves
            if T.is_op(args[0], 'BARR'):
                return args[0][2]
            if T.type_of(args[0]) == 'bytes':
                return args[0]
            return T.opaque('memoryview of a value that is not known to be bytes')
        if short == 'divmod' and len(args) == 2 and not kwargs and not all(T.is_const(a) for a in args) \
                and all(T.type_of(a) in ('int', 'bool') for a in args):
            return T.tup([T.floordiv(args[0], args[1]), T.mod(args[0], args[1])])
        if short == 'bool':
            return T.truth(args[0]) if args else T.FALSE
        if short == 'isinstance':
            return _isinstance(ev, args[0], args[1])
        if short == 'type' and len(args) == 1:
            return _typeof(ev, args[0])
        if short == 'range':
            return T.raw_op('RANGE', *args)
        if short == 'zip':
            # zip of comprehensions over one and the same iterable (columns built separately, then zipped into rows) is the
            # comprehension of the tuples; itertools.repeat(x) supplies x to every row
            maps = [a for a in args if T.is_op(a, 'MAP')]
            if maps and all(T.is_op(a, 'MAP') or T.is_op(a, 'REPEAT') for a in args) \
                    and all(m[2] == maps[0][2] and m[4] == maps[0][4] and m[5] == T.TRUE and m[6] == T.const('list') for m in maps):
                return T.raw_op('MAP', maps[0][2], T.tup([a[3] if T.is_op(a, 'MAP') else a[2] for a in args]), maps[0][4], T.TRUE, T.const('list'))
            return T.raw_op('ZIP', *args)
        if short == 'enumerate':
            a = _kw(args, kwargs, ['iterable', 'start'], {'start': T.const(0)})
            if a['start'] == T.const(0):
                return T.raw_op('ENUMERATE', a['iterable'])
            return T.raw_op('ENUMERATE', a['iterable'], a['start'])
        if short in ('list', 'tuple', 'set', 'sorted', 'frozenset'):
            if not args:
                return T.lst([]) if short != 'tuple' else T.tup([])
            from .evalr import _fixed_items
            items = _fixed_items(args[0])
            if items is not None:
                if short == 'sorted':
                    rev = kwargs.get('reverse', T.FALSE)
                    if all(T.is_const(i) for i in items) and T.is_const(rev):
                        try:
                            items = sorted(items, key=lambda c: c[1], reverse=bool(rev[1]))
                        except TypeError:
                            return T.raw_op('SORTED', args[0], rev)
                    elif T.is_const(rev) and all(T.tag(i) == 'tuple' and i[1] and T.is_const(i[1][0]) for i in items) \
                            and len({i[1][0] for i in items}) == len(items):
                        # tuples with distinct constant first elements (items of a table with constant keys): ordered by those
                        try:
                            items = sorted(items, key=lambda c: c[1][0][1], reverse=bool(rev[1]))
                        except TypeError:
                            return T.raw_op('SORTED', args[0], rev)
                    else:
                        return T.raw_op('SORTED', args[0], rev)
                return T.tup(items) if short == 'tuple' else T.lst(items)
            if T.is_op(args[0], 'MAP'):
                return args[0]
            return T.raw_op(short.upper(), args[0])
        if short == 'dict':
            if not args:
                return T.dct([(T.const(k), v) for k, v in kwargs.items()])
            from .evalr import _fixed_items
            if T.tag(args[0]) == 'dict':
                return args[0]
            items = _fixed_items(args[0])
            if items is not None and all(T.tag(i) in ('tuple', 'list') and len(i[1]) == 2 for i in items):
                return T.dct([(i[1][0], i[1][1]) for i in items])
            return T.raw_op('DICT', args[0])
        if short == 'bin':
            if T.is_const(args[0]) and isinstance(args[0][1], int):
                return T.const(bin(args[0][1]))
            return T.raw_op('BIN', args[0])
        if short == 'hex':
            if T.is_const(args[0]) and isinstance(args[0][1], int):
                return T.const(hex(args[0][1]))
            return T.raw_op('HEXINT', args[0])
        if short == 'ord':
            if T.is_const(args[0]):
                return T.const(ord(args[0][1]))
            return T.raw_op('ORD', args[0])
        if short == 'chr':
            if T.is_const(args[0]):
                return T.const(chr(args[0][1]))
            return T.raw_op('CHR', args[0])
        if short in ('min', 'max', 'sum', 'abs', 'divmod', 'any', 'all', 'pow', 'round'):
            if all(T.is_const(a) for a in args) and not kwargs:
                try:
                    return T.const({'min': min, 'max': max, 'sum': sum, 'abs': abs, 'divmod': divmod, 'any': any,
                                    'all': all, 'pow': pow, 'round': round}[short](*[a[1] for a in args]))
                except Exception:
                    return T.raise_('TypeError')
            if short in ('sum', 'min', 'max') and len(args) == 1 and not kwargs:
                from .evalr import _fixed_items
                items = _fixed_items(args[0])
                if items is not None and items and all(T.is_const(i_) and isinstance(i_[1], int) and not isinstance(i_[1], bool) for i_ in items):
                    return T.const({'sum': sum, 'min': min, 'max': max}[short]([i_[1] for i_ in items]))
                if short == 'sum' and items is not None and 0 < len(items) <= 64 and all(T.type_of(i_) == 'int' for i_ in items):
                    out = T.const(0)
                    for i_ in items:
                        out = T.add(out, i_)
                    return out
            if short in ('all', 'any') and len(args) == 1 and not kwargs:
                from .evalr import _fixed_items
                items = _fixed_items(args[0])
                if items is not None and len(items) <= 64:
                    # all/any of a fixed number of values: their conjunction / disjunction
                    out = T.TRUE if short == 'all' else T.FALSE
                    for it_ in items:
                        out = T.and_(out, ev.truth(it_, fr)) if short == 'all' else T.or_(out, ev.truth(it_, fr))
                    return out
            return T.raw_op(short.upper(), *args)
        if short == 'format' and len(args) == 2 and T.is_const(args[1]) and isinstance(args[1][1], str):
            import re as _re
            m_ = _re.fullmatch(r'0(\d+)b', args[1][1])
            if m_ and T.type_of(args[0]) == 'int':
                # format(x, '0Nb') == bin(x)[2:].zfill(N) for non-negative x
                return T.raw_op('ZFILL', T.slice_(T.raw_op('BIN', args[0]), T.const(2), T.NONE), T.const(int(m_.group(1))))
            if args[1][1] == 'b' and T.type_of(args[0]) == 'int':
                return T.slice_(T.raw_op('BIN', args[0]), T.const(2), T.NONE)
            if args[1][1] == '' :
                return to_str(ev, args[0], fr)
        if short == 'open':
            ev.effects.append(('open', fr.fn.qual if fr.fn else None, node.lineno if node else 0,
                               tuple(T.show(a) for a in args)))
            return T.raw_op('FILE', *args)
        if short == 'print':
            ev.effects.append(('print', fr.fn.qual if fr.fn else None, node.lineno if node else 0,
                               T.show(kwargs['file'], maxdepth=2) if 'file' in kwargs else ''))
            return T.NONE
        if short.endswith('Error') or short in ('Exception', 'StopIteration'):
            return T.raw_op('EXC', T.const(short))
        if short == 'object':
            return T.opaque('object()')
        return T.opaque('builtin %s' % short)
    # ---------------------------------------------------------------- hashing
    if dotted in ('hashlib.sha256', 'hashlib.sha512', 'hashlib.sha1', 'hashlib.md5', 'hashlib.sha384',
                  'hashlib.sha224', 'hashlib.sha3_256', 'hashlib.blake2b'):
        data = args[0] if args else kwargs.get('string', T.const(b''))
        return T.raw_op('HASHOBJ', T.const(short), data)
    if dotted == 'hashlib.new':
        obj = T.raw_op('HASHOBJ', args[0], args[1] if len(args) > 1 else kwargs.get('data', T.const(b'')))
        guaranteed = ('md5', 'sha1', 'sha224', 'sha256', 'sha384', 'sha512', 'sha3_224', 'sha3_256', 'sha3_384', 'sha3_512',
                      'blake2b', 'blake2s', 'shake_128', 'shake_256')
        if T.is_const(args[0]) and args[0][1] in guaranteed:
            return obj
        # any other algorithm (ripemd160, md4, ...) comes from the OpenSSL build and may be missing: ValueError
        return T.phi(T.raw_op('BOOL', T.sym('ENV:hashlib provides %s' % (args[0][1] if T.is_const(args[0]) else '?'), type='bool')),
                     obj, T.raise_('ValueError'))
    if dotted in ('hmac.compare_digest', 'secrets.compare_digest') and len(args) == 2 and not kwargs:
        # constant-time equality of two byte strings (or ASCII texts): the same truth value as ==
        return T.eq(args[0], args[1])
    if dotted == 'hmac.new':
        a = _kw(args, kwargs, ['key', 'msg', 'digestmod'])
        return T.raw_op('HMACOBJ', a['key'], a['msg'] if a['msg'] is not None else T.const(b''),
                        a['digestmod'] if a['digestmod'] is not None else T.NONE)
    if dotted == 'hmac.digest':
        a = _kw(args, kwargs, ['key', 'msg', 'digest'])
        return _hmac(a['key'], a['msg'], a['digest'])
    if dotted == 'hashlib.pbkdf2_hmac':
        a = _kw(args, kwargs, ['hash_name', 'password', 'salt', 'iterations', 'dklen'], {'dklen': T.NONE})
        if None in (a['hash_name'], a['password'], a['salt'], a['iterations']):
            return T.raise_('TypeError')
        return T.raw_op('PBKDF2', a['hash_name'], a['password'], a['salt'], a['iterations'], a['dklen'])
    if dotted == 'unicodedata.normalize':
        form, s = args[0], args[1]
        return normalize(form, s)
    if dotted == 'unicodedata.ucd_3_2_0.normalize' and len(args) == 2 and not kwargs:
        # the frozen Unicode 3.2 database: a different function from the interpreter's current normalisation
        # (code points that gained a decomposition after Unicode 3.2 are left alone)
        return T.raw_op('NORM_UNICODE_3_2_0', args[0], args[1])
    if dotted == 'unicodedata.is_normalized' and len(args) == 2 and not kwargs:
        # by definition: the string equals its normal form
        return T.eq(normalize(args[0], args[1]), args[1])
    if dotted in ('threading.Lock', 'threading.RLock') and not args and not kwargs:
        return T.raw_op('LOCKOBJ', T.const(dotted))
    if dotted == 'base64.b64encode':
        return T.raw_op('B64ENC', args[0])
    if dotted in ('collections.namedtuple', 'typing.NamedTuple'):
        from .evalr import _fixed_items
        nm = args[0][1] if args and T.is_const(args[0]) else 'nt'
        fl = args[1] if len(args) > 1 else kwargs.get('field_names')
        if fl is not None and T.is_const(fl) and isinstance(fl[1], str):
            names = fl[1].replace(',', ' ').split()
        else:
            items = _fixed_items(fl) if fl is not None else None
            names = [i[1] for i in items] if items and all(T.is_const(i) for i in items) else None
        if names:
            return ('op', 'NTCLS', nm, tuple(names))
        return T.opaque('namedtuple with non-constant fields')
    if dotted == 're.findall':
        return T.raw_op('REFINDALL', args[0], args[1])
    if dotted == 'json.dumps':
        pos = ['obj']
        a = _kw(args[:1], {k_: v_ for k_, v_ in kwargs.items() if k_ in ('obj', 'indent')}, ['obj', 'indent'], {'indent': T.NONE})
        rest = {k_: v_ for k_, v_ in kwargs.items() if k_ not in ('obj', 'indent')}
        if len(args) > 1:
            raise UnmodelledKeyword('positional arguments after obj')
        # options left at their documented defaults change nothing; sort_keys=True orders the keys of every mapping (the same
        # data, another text); anything else is not modelled
        DEFAULTS = {'sort_keys': T.FALSE, 'ensure_ascii': T.TRUE, 'skipkeys': T.FALSE, 'check_circular': T.TRUE, 'allow_nan': T.TRUE,
                    'cls': T.NONE, 'separators': T.NONE, 'default': T.NONE}
        extra = []
        for k_, v_ in sorted(rest.items()):
            if k_ not in DEFAULTS:
                raise UnmodelledKeyword(k_)
            if v_ == DEFAULTS[k_]:
                continue
            if k_ == 'sort_keys':
                extra.append(T.phi(ev.truth(v_, fr), T.const('sort_keys'), T.const('')))
                continue
            raise UnmodelledKeyword(k_)
        out = T.raw_op('JSON', a['obj'], a['indent'])
        for e_ in extra:
            out = T.phi(T.eq(e_, T.const('')), out, T.raw_op('JSON_SORTED', a['obj'], a['indent'])) if not T.is_const(e_) else \
                (out if e_ == T.const('') else T.raw_op('JSON_SORTED', a['obj'], a['indent']))
        return out
    if dotted == 'io.BytesIO':
        return ev.new_stream(args[0] if args else T.const(b''))
    # ---------------------------------------------------------------- randomness
    if dotted in ('random.SystemRandom', 'secrets.SystemRandom'):
        return T.raw_op('CSPRNG', T.const(dotted))
    if dotted == 'random.Random':
        return T.raw_op('PRNG', T.const(dotted))
    if dotted in ('secrets.randbits',):
        return T.raw_op('RANDBITS', T.raw_op('CSPRNG', T.const(dotted)), args[0])
    if dotted in ('os.urandom', 'secrets.token_bytes'):
        return T.raw_op('RANDBYTES', T.raw_op('CSPRNG', T.const(dotted)), args[0])
    if dotted.startswith('random.'):
        return T.raw_op('RANDBITS' if short == 'getrandbits' else 'RANDVAL', T.raw_op('PRNG', T.const(dotted)), *args)
    # ---------------------------------------------------------------- libsecp256k1 wrapper
    if dotted == 'pysecp256k1.ec_seckey_verify':
        return _contract(ev, fr, [_valid_sk(args[0])], T.NONE)
    if dotted == 'pysecp256k1.ec_pubkey_create':
        return _contract(ev, fr, [_valid_sk(args[0])], T.pt(args[0]))
    if dotted == 'pysecp256k1.ec_pubkey_serialize':
        a = _kw(args, kwargs, ['pubkey', 'compressed'], {'compressed': T.TRUE})
        return T.sec(a['pubkey'], T.truth(a['compressed']))
    if dotted == 'pysecp256k1.ec_pubkey_parse':
        if _not_a_sec_encoding(args[0]):
            return T.raise_('LibraryError')
        if _point_of_coordinate_encoding(args[0]) is not None:
            return _point_of_coordinate_encoding(args[0])
        return _contract(ev, fr, [T.raw_op('ON_CURVE', args[0])], T.parse_pt(args[0]))
    if dotted == 'pysecp256k1.ec_seckey_tweak_add':
        k, t = args[0], args[1]
        return _contract(ev, fr, [T.lt(T.int_(t, T.const('big')), T.CURVE_N), T.not_(T.eq(T.sk_add_int(k, t), T.const(0))),
                                  _valid_sk(k)], T.sk_add(k, t))
    if dotted == 'pysecp256k1.ec_pubkey_tweak_add':
        p, t = args[0], args[1]
        res = T.pt_add(p, T.pt(t))
        return _contract(ev, fr, [T.lt(T.int_(t, T.const('big')), T.CURVE_N), T.not_(T.eq(res, T.INFINITY))], res)
    if dotted.startswith('pysecp256k1.'):
        return T.opaque('unknown secp function %s' % short)
    # ---------------------------------------------------------------- ecdsa
    if dotted == 'ecdsa.SigningKey.from_string':
        a = _kw(args, kwargs, ['string', 'curve'], {'curve': T.ext('ecdsa.curves.NIST192p')})
        if a['curve'] != SECP_CURVE:
            return T.raw_op('ECDSA_SK_OTHERCURVE', a['string'], a['curve'])
        return _contract(ev, fr, [_valid_sk(a['string'])], T.raw_op('ECDSA_SK', a['string']))
    if dotted == 'ecdsa.SigningKey.from_secret_exponent':
        a = _kw(args, kwargs, ['secexp', 'curve'], {'curve': T.ext('ecdsa.curves.NIST192p')})
        if a['curve'] != SECP_CURVE:
            return T.raw_op('ECDSA_SK_OTHERCURVE', a['secexp'], a['curve'])
        b = T.ser(a['secexp'], T.const(32), T.const('big'))
        return _contract(ev, fr, [_valid_sk(b)], T.raw_op('ECDSA_SK', b))
    if dotted == 'ecdsa.VerifyingKey.from_string':
        a = _kw(args, kwargs, ['string', 'curve', 'hashfunc', 'validate_point'],
                {'curve': T.ext('ecdsa.curves.NIST192p'), 'validate_point': T.TRUE})
        if a['curve'] != SECP_CURVE:
            return T.raw_op('POINT_OTHERCURVE', a['string'], a['curve'])
        if T.truth(a['validate_point']) != T.TRUE:
            # the documented switch that skips the on-curve check: no validity contract, a different operator
            return T.raw_op('PARSE_PT_UNVALIDATED', a['string'], a['validate_point'])
        if _not_a_sec_encoding(a['string']):
            return T.raise_('LibraryError')
        if _point_of_coordinate_encoding(a['string']) is not None:
            return _point_of_coordinate_encoding(a['string'])
        return _contract(ev, fr, [T.raw_op('ON_CURVE', a['string'])], T.parse_pt(a['string']))
    if dotted == 'ecdsa.VerifyingKey.from_public_point':
        a = _kw(args, kwargs, ['point', 'curve', 'hashfunc', 'validate_point'], {'curve': T.ext('ecdsa.curves.NIST192p')})
        if a['curve'] != SECP_CURVE:
            return T.raw_op('POINT_OTHERCURVE', a['point'], a['curve'])
        return a['point']
    if dotted == 'ecdsa.ecdsa.generator_secp256k1.order' or dotted == 'ecdsa.curves.SECP256k1.order':
        return T.CURVE_N
    if dotted == 'ecdsa.curves.SECP256k1.curve.p':
        return T.sym('FIELD_P', type='int')
    if dotted.startswith('ecdsa.'):
        return T.opaque('unknown ecdsa function %s' % dotted)
    # ---------------------------------------------------------------- process / io
    if dotted in ('sys.exit', 'os._exit', 'builtins.exit', 'builtins.quit'):
        ev.exits.append((args[0] if args else T.const(0), fr.fn.qual if fr.fn else None, node.lineno if node is not None else 0))
        return T.raise_('SystemExit#%d' % (len(ev.exits) - 1))
    if dotted.startswith('sys.stdout.') or dotted.startswith('sys.stderr.'):
        ev.effects.append(('stream-write', fr.fn.qual if fr.fn else None, node.lineno if node else 0, dotted, tuple(args)))
        return T.NONE
    if dotted.startswith('argparse.ArgumentError'):
        return T.raw_op('EXC', T.const('ArgumentError'))
    return T.raw_op('EXTCALL', T.const(dotted), *args, *[v for _, v in sorted(kwargs.items())])


def normalize(form, s):
    if T.is_const(s) and isinstance(s[1], str) and s[1].isascii():
        return s
    if T.is_op(s, 'NORM') and s[2] == form:
        return s
    if T.is_op(s, 'CAT'):
        # normalisation does not distribute over concatenation in general: keep as is
        return T.raw_op('NORM', form, s)
    return T.raw_op('NORM', form, s)


def encode(recv, enc=None, errors=None):
    enc = enc if enc is not None else T.const('utf-8')
    errors = errors if errors is not None else T.const('strict')
    if T.is_const(enc) and isinstance(enc[1], str) and enc[1].lower().replace('_', '-') in ('utf-8', 'utf8'):
        enc = T.const('utf-8')
    if T.is_const(recv) and isinstance(recv[1], str) and T.is_const(enc) and errors == T.const('strict'):
        try:
            return T.const(recv[1].encode(enc[1]))
        except Exception:
            return T.raise_('UnicodeEncodeError')
    if T.is_op(recv, 'CAT') and enc == T.const('utf-8') and errors == T.const('strict') and T.type_of(recv) == 'str':
        # UTF-8 encodes code point by code point: the encoding of a concatenation is the concatenation of the encodings
        # (one canonical spelling for `(a + b).encode()` and `a.encode() + b.encode()`)
        return T.cat(*[encode(x, enc, errors) for x in recv[2:]])
    return T.raw_op('ENCODE', recv, enc, errors)


def fromhex(s):
    if T.is_const(s) and isinstance(s[1], str):
        try:
            return T.const(bytes.fromhex(s[1]))
        except ValueError:
            return T.raise_('ValueError')
    if T.is_op(s, 'HEX'):
        return s[2]
    if T.is_op(s, 'CAT') and any(T.is_const(x) and isinstance(x[1], str) and set(x[1]) - set('0123456789abcdefABCDEF \t\n\r\x0b\x0c')
                                 for x in s[2:]):
        return T.raise_('ValueError')       # a constant piece of the text holds a character that is no hex digit ('0x...')
    return T.raw_op('FROMHEX', s)


def _hmac(key, msg, dm):
    if dm in (T.ext('hashlib.sha512'), T.const('sha512')):
        return T.raw_op('HMAC512', key, msg)
    return T.raw_op('HMAC', dm, key, msg)


def attr_of(ev, base, name, fr):
    tb = T.type_of(base)
    if tb == 'point' and name in ('pubkey', 'point'):
        return base
    if T.is_op(base, 'HASHOBJ') and name == 'digest_size':
        return T.opaque('digest_size')
    return T.raw_op('ATTR', base, T.const(name))


def method_call(ev, recv, name, args, kwargs, fr, node):
    if T.tag(recv) == 'raise':
        return recv
    if T.is_op(recv, 'LOGGER'):
        # a logger of the logging module: emitting a record computes its arguments (done by the caller) and returns None;
        # where records go is configuration outside the package (no handler by default)
        if name in ('debug', 'info', 'warning', 'warn', 'error', 'critical', 'exception', 'log', 'addHandler', 'removeHandler',
                    'setLevel', 'addFilter'):
            return T.NONE
        if name in ('isEnabledFor', 'hasHandlers'):
            return T.raw_op('BOOL', T.sym('ENV:logging configuration (%s)' % name, type='bool'))
        if name == 'getChild':
            return recv
        return T.opaque('logger.%s' % name)
    if T.is_op(recv, 'STRUCTOBJ') and name in ('unpack', 'pack') and not kwargs:
        return _ext_call(ev, 'struct.' + name, [recv[2]] + list(args), {}, fr, node)
    if any(T.is_op(a, 'ITER') for a in args) and name in ('join', 'extend', 'update', 'fromkeys'):
        args = [ev._consume(a) for a in args]
    if T.is_op(recv, 'ITER'):
        if name == '__next__' and not args:
            items = ev._consume(recv)
            return T.opaque('next() on a one-shot iterator')
        return T.raise_('AttributeError')
    if T.is_op(recv, 'BARR') and name not in MUTATOR_NAMES:
        recv = recv[2]          # reading methods of a bytearray are those of the bytes it holds
    tb = T.type_of(recv)
    if tb == 'argparser':
        if name in ('exit', 'error'):
            a = _kw(args, kwargs, ['status', 'message'], {'status': T.const(0 if name == 'exit' else 2)})
            ev.exits.append((a['status'], fr.fn.qual if fr.fn else None, node.lineno if node is not None else 0))
            return T.raise_('SystemExit#%d' % (len(ev.exits) - 1))
        if name in ('print_help', 'print_usage'):
            ev.effects.append(('argparse-help', fr.fn.qual if fr.fn else None, node.lineno if node is not None else 0, name))
            return T.NONE
    if T.is_op(recv, 'LOCKOBJ'):
        # sequential evaluation: a lock that every path releases again is free when it is asked for (what other threads do
        # is outside this model; the checks that speak about interleavings rest on the absence of shared state)
        if name == 'acquire':
            return T.TRUE
        if name in ('release', '__exit__'):
            return T.NONE
        if name in ('locked',):
            return T.FALSE
        if name == '__enter__':
            return T.TRUE
    # hashing objects
    if T.is_op(recv, 'HASHOBJ'):
        if name == 'digest':
            algo = recv[2]
            if algo == T.const('sha256'):
                return T.raw_op('SHA256', recv[3])
            if algo == T.const('sha512'):
                return T.raw_op('SHA512', recv[3])
            if algo in (T.const('ripemd160'), T.const('rmd160'), T.const('RIPEMD160')):
                return T.raw_op('RIPEMD160', recv[3])       # OpenSSL's RIPEMD-160 is the same function as the bundled one
            return T.raw_op('HASH', algo, recv[3])
        if name == 'hexdigest':
            return T.raw_op('HEX', method_call(ev, recv, 'digest', [], {}, fr, node))
    if T.is_op(recv, 'HMACOBJ'):
        if name == 'digest':
            return _hmac(recv[2], recv[3], recv[4])
        if name == 'hexdigest':
            return T.raw_op('HEX', _hmac(recv[2], recv[3], recv[4]))
    if T.is_op(recv, 'ECDSA_SK'):
        if name == 'get_verifying_key':
            return T.pt(recv[2])
        if name == 'to_string':
            return recv[2]
    if T.is_op(recv, 'CSPRNG') or T.is_op(recv, 'PRNG'):
        if name == 'getrandbits':
            return T.raw_op('RANDBITS', recv, args[0])
        return T.raw_op('RANDVAL', recv, T.const(name), *args)
    if T.is_op(recv, 'STREAM'):
        if name == 'read' and len(args) <= 1:
            data, pos = ev.heap[recv[2][1]]
            if args and args[0] != T.NONE:
                n = args[0]
                end = T.add(pos, n)
                val = T.slice_(data, pos, end)
            else:
                n = T.NONE
                end = T.len_(data)
                val = T.slice_(data, pos, T.NONE)
            ev.reads.append((val, n, fr.fn.qual if fr.fn else None, node.lineno if node is not None else 0))
            ev.heap[recv[2][1]] = (data, end)
            return val
        if name == 'tell' and not args and not kwargs:
            return ev.heap[recv[2][1]][1]
        if name == 'seek' and 1 <= len(args) <= 2 and not kwargs:
            data, pos = ev.heap[recv[2][1]]
            whence = args[1] if len(args) == 2 else T.const(0)
            if whence == T.const(0):
                new = args[0]
            elif whence == T.const(1):
                new = T.add(pos, args[0])
            elif whence == T.const(2):
                new = T.add(T.len_(data), args[0])
            else:
                return T.opaque('stream.seek with a symbolic whence')
            ev.heap[recv[2][1]] = (data, new)
            return new
        if name in ('getvalue',) and not args:
            return ev.heap[recv[2][1]][0]
        if name in ('close', 'flush', 'readable', 'seekable'):
            return T.NONE if name in ('close', 'flush') else T.TRUE
        return T.opaque('stream.%s' % name)
    if tb == 'point':
        if name in ('x', 'y') and not args and not kwargs:
            # affine coordinates of a curve point: integers in [0, p)
            return T.raw_op('PX' if name == 'x' else 'PY', recv)
        if name == 'to_string':
            a = _kw(args, kwargs, ['encoding'], {'encoding': T.const('raw')})
            enc = a['encoding']
            if T.tag(enc) == 'phi' and T.is_const(enc[2]) and T.is_const(enc[3]):
                return T.phi(enc[1], method_call(ev, recv, name, [enc[2]], {}, fr, node),
                             method_call(ev, recv, name, [enc[3]], {}, fr, node))
            if enc == T.const('compressed'):
                return T.sec(recv, T.TRUE)
            if enc == T.const('uncompressed'):
                return T.sec(recv, T.FALSE)
            return T.raw_op('POINT_TO_STRING', recv, enc)
        return T.opaque('point.%s' % name)
    if T.tag(recv) == 'phi':
        return T.phi(recv[1], method_call(ev, recv[2], name, args, kwargs, fr, node),
                     method_call(ev, recv[3], name, args, kwargs, fr, node))
    if kwargs and name not in ('to_bytes', 'encode', 'format'):
        return T.opaque('keyword argument(s) %s of method .%s are not modelled' % (sorted(kwargs), name))
    # int
    if name == 'to_bytes':
        try:
            a = _kw(args, kwargs, ['length', 'byteorder', 'signed'], {'length': T.const(1), 'byteorder': T.const('big'), 'signed': T.FALSE})
        except UnmodelledKeyword as e:
            return T.opaque('keyword %s= of int.to_bytes is not modelled' % e)
        sg = a['signed']
        if sg not in (T.TRUE, T.FALSE):
            sg = ev.decide(ev.truth(sg, fr), fr)      # `signed=n < 0` with n known non-negative (interval domain) is False
        if sg == T.FALSE:
            return T.ser(recv, a['length'], a['byteorder'])
        # two's complement: accepts negative numbers (the unsigned form refuses them with OverflowError)
        signed_form = T.raw_op('SER_SIGNED', recv, a['length'], a['byteorder'])
        if sg == T.TRUE:
            return signed_form
        return T.phi(sg, signed_form, T.ser(recv, a['length'], a['byteorder']))
    if name == 'bit_length' and T.is_const(recv):
        return T.const(recv[1].bit_length())
    # bytes
    if name == 'hex' and args:
        return T.opaque('bytes.hex(sep) is not modelled')
    if name == 'hex' and (tb == 'bytes' or tb is None):
        if T.is_const(recv) and isinstance(recv[1], bytes):
            return T.const(recv[1].hex())
        if T.is_op(recv, 'FROMHEX_CANON'):
            return recv[2]
        return T.raw_op('HEX', recv)
    if name == 'decode':
        if T.is_const(recv) and isinstance(recv[1], bytes):
            try:
                return T.const(recv[1].decode(*[a[1] for a in args]))
            except Exception:
                return T.raise_('UnicodeDecodeError')
        if T.is_op(recv, 'B64ENC'):
            return T.raw_op('B64STR', recv[2])
        return T.raw_op('DECODE', recv, *args)
    # str
    if name == 'encode':
        a = _kw(args, kwargs, ['encoding', 'errors'], {'encoding': T.const('utf-8'), 'errors': T.const('strict')})
        return encode(recv, a['encoding'], a['errors'])
    if name == 'format':
        return fmt(ev, recv, args, kwargs, fr)
    if name == 'join':
        from .evalr import _fixed_items
        items = _fixed_items(args[0]) if args else None
        if items is not None:
            out = []
            for i, it in enumerate(items):
                if i:
                    out.append(recv)
                out.append(it)
            if all(T.type_of(x) in ('str', 'bytes') for x in out):
                return T.cat(*out) if out else (T.const('') if tb == 'str' else T.const(b''))
        return T.raw_op('JOIN', recv, args[0])
    if name == 'split' and T.is_op(recv, 'JOIN') and args and args[0] == recv[2] and T.tag(recv[3]) == 'list':
        return recv[3]         # parts are separator-free by construction of the symbolic input
    if name == 'split' and T.is_op(recv, 'CAT') and len(args) == 1 and T.is_const(args[0]) \
            and isinstance(args[0][1], str) and len(args[0][1]) == 1 and args[0][1] not in '0123456789-':
        # text made of constant pieces and decimal renderings of integers: the separator can only occur in the
        # constant pieces
        sep = args[0][1]
        comps, cur, ok = [], [], True
        for seg in recv[2:]:
            if T.is_const(seg) and isinstance(seg[1], str):
                pieces = seg[1].split(sep)
                cur.append(T.const(pieces[0]))
                for pc in pieces[1:]:
                    comps.append(T.cat(*cur) if cur else T.const(''))
                    cur = [T.const(pc)]
            elif T.is_op(seg, 'STR') and T.type_of(seg[2]) == 'int':
                cur.append(seg)
            else:
                ok = False
                break
        if ok:
            comps.append(T.cat(*cur) if cur else T.const(''))
            return T.lst(comps)
    if name in ('split', 'rsplit'):
        if T.is_const(recv) and all(T.is_const(a) for a in args):
            return T.lst([T.const(x) for x in getattr(recv[1], name)(*[a[1] for a in args])])
        return T.raw_op('SPLIT', recv, *args)
    if T.is_op(recv, 'HEX') and name in ('strip', 'lstrip', 'rstrip', 'lower') and len(args) <= 1:
        # canonical hex text: lower-case digits only - nothing to strip unless hex digits themselves are stripped
        if name == 'lower' and not args:
            return recv
        if name != 'lower' and (not args or (T.is_const(args[0]) and isinstance(args[0][1], str)
                                            and not (set(args[0][1]) & set('0123456789abcdef')))):
            return recv
    if T.is_op(recv, 'CAT') and name in ('strip', 'lstrip', 'rstrip') and len(args) <= 1 and len(recv) >= 4 \
            and T.is_const(recv[2]) and isinstance(recv[2][1], str) and recv[2][1] and T.is_op(recv[-1], 'HEX') and len(recv[-1]) == 3 \
            and (T.length_of(recv[-1][2]) or 0) > 0:
        # constant text followed by canonical hex digits ('0x' + hex): nothing is stripped when neither the first character of
        # the constant nor a hex digit is in the strip set
        chars = None
        if not args or args[0] == T.NONE:
            chars = set(' \t\n\r\x0b\x0c\x1c\x1d\x1e\x1f\x85\xa0')
        elif T.is_const(args[0]) and isinstance(args[0][1], str):
            chars = set(args[0][1])
        if chars is not None and recv[2][1][0] not in chars and not (chars & set('0123456789abcdef')):
            return recv
    if T.is_op(recv, 'CAT') and name in ('startswith',) and len(args) == 1 and T.is_const(args[0]) and isinstance(args[0][1], str) \
            and T.is_const(recv[2]) and isinstance(recv[2][1], str) and len(recv[2][1]) >= len(args[0][1]):
        return T.const(recv[2][1].startswith(args[0][1]))
    if T.is_op(recv, 'HEX') and name == 'startswith' and len(args) == 1 and T.is_const(args[0]) and isinstance(args[0][1], str) \
            and set(args[0][1]) - set('0123456789abcdef'):
        return T.FALSE
    if name in ('removeprefix', 'removesuffix') and len(args) == 1:
        if T.is_const(recv) and T.is_const(args[0]) and isinstance(recv[1], (str, bytes)):
            try:
                return T.const(getattr(recv[1], name)(args[0][1]))
            except Exception:
                return T.raise_('TypeError')
        return T.raw_op(name.upper(), recv, args[0])       # removes at most ONE occurrence (unlike lstrip / rstrip)
    if name in ('strip', 'lstrip', 'rstrip', 'upper', 'lower', 'zfill', 'startswith', 'endswith', 'find', 'rfind',
                'index', 'count', 'replace', 'isdigit', 'ljust', 'rjust', 'title', 'capitalize'):
        if T.is_const(recv) and all(T.is_const(a) for a in args) and isinstance(recv[1], (str, bytes)):
            try:
                return T.const(getattr(recv[1], name)(*[a[1] for a in args]))
            except Exception:
                return T.raise_('ValueError')
        if name == 'strip' and T.is_op(recv, 'B64STR') and not args:
            return recv
        return T.raw_op(name.upper(), recv, *args)
    # dict / list
    if name in ('items', 'values', 'keys') and not args:
        return T.raw_op(name.upper(), recv)
    if name == 'get' and T.tag(recv) == 'dict' and args and not T.is_const(args[0]) and T.tag(args[0]) != 'enum' \
            and 0 < len(recv[1]) <= 64 and all(T.is_const(k_) for k_, _ in recv[1]):
        out = args[1] if len(args) > 1 else T.NONE
        for k_, v_ in reversed(recv[1]):
            out = T.phi(T.eq(args[0], k_), v_, out)
        return out
    if name == 'get':
        if T.tag(recv) == 'dict' and T.is_const(args[0]):
            v = T.getitem(recv, args[0])
            if T.tag(v) == 'raise':
                return args[1] if len(args) > 1 else T.NONE
            return v
        return T.raw_op('DICTGET', recv, *args)
    if name in ('append', 'extend', 'insert', 'pop', 'remove', 'clear', 'update', 'add', 'sort', 'reverse',
                'setdefault', 'write', 'writelines', 'close', 'flush', 'seek'):
        # mutation: rebind when the receiver is a local variable holding a fixed-shape list
        if node is not None and isinstance(node.func.value, ast.Name) and node.func.value.id in fr.env:
            var = node.func.value.id
            cur = fr.env[var]
            if name not in ('write', 'writelines', 'close', 'flush', 'seek'):
                fr.mutated.add(var)
            if name == 'update' and T.tag(cur) == 'dict' and len(args) == 1 and not kwargs and T.tag(args[0]) == 'dict' \
                    and all(T.is_const(k_) for k_, _ in cur[1]) and all(T.is_const(k_) for k_, _ in args[0][1]):
                pairs = [(k_, v_) for k_, v_ in cur[1]]
                for k_, v_ in args[0][1]:
                    if any(k0 == k_ for k0, _ in pairs):
                        pairs = [(k0, (v_ if k0 == k_ else v0)) for k0, v0 in pairs]
                    else:
                        pairs.append((k_, v_))
                fr.env[var] = T.dct(pairs)
                return T.NONE
            if name == 'append' and T.tag(cur) == 'list' and len(args) == 1:
                fr.env[var] = T.lst(list(cur[1]) + [args[0]])
                return T.NONE
            if T.is_op(cur, 'BARR') and name in ('append', 'extend') and len(args) == 1:
                if name == 'append' and T.type_of(args[0]) in ('int', 'bool'):
                    fr.env[var] = T.raw_op('BARR', T.cat(cur[2], T.ser(args[0], T.const(1), T.const('big'))))
                    return T.NONE
                if name == 'extend':
                    more = _bytes_cast(ev, [args[0]], {}, fr)
                    if T.tag(more) != 'raise' and T.type_of(more) == 'bytes':
                        fr.env[var] = T.raw_op('BARR', T.cat(cur[2], more))
                        return T.NONE
            if name == 'extend' and T.tag(cur) == 'list' and T.tag(args[0]) in ('list', 'tuple'):
                fr.env[var] = T.lst(list(cur[1]) + list(args[0][1]))
                return T.NONE
            if name in ('append', 'extend') and len(args) == 1 and (T.tag(cur) == 'sym' or T.is_op(cur, 'APPEND') or T.is_op(cur, 'EXTEND')):
                fr.env[var] = T.raw_op(name.upper(), cur, args[0])
                return T.NONE
            if name in ('write', 'writelines', 'close', 'flush'):
                ev.effects.append(('file-write', fr.fn.qual if fr.fn else None, node.lineno,
                                   ast.unparse(node.func), tuple(args)))
                return T.NONE
            fr.env[var] = T.opaque('mutated by .%s' % name)
            return T.NONE
        ev.effects.append(('mutating-call', fr.fn.qual if fr.fn else None, node.lineno if node else 0,
                           ast.unparse(node.func) if node is not None else name))
        return T.NONE
    return T.raw_op('METHOD', recv, T.const(name), *args)


# ----------------------------------------------------------------------------
# summaries of loop-bodied package functions (named operators)
# ----------------------------------------------------------------------------

def _s_encode_base58(ev, fi, env, facts):
    return T.raw_op('B58ENC', env[fi.params[0]]), facts


def _s_decode_base58(ev, fi, env, facts):
    return T.raw_op('B58DEC', env[fi.params[0]]), facts


def _s_ripemd160(ev, fi, env, facts):
    return T.raw_op('RIPEMD160', env[fi.params[0]]), facts


def _s_bech32_encode(ev, fi, env, facts):
    return T.raw_op('BECH32', *[env[q] for q in fi.params[:3]]), facts


def _s_bech32_decode(ev, fi, env, facts):
    return T.raw_op('BECH32DEC', *[env[q] for q in fi.params[:2]]), facts


DEFAULT_SUMMARIES = {
    'helper.encode_base58': _s_encode_base58,
    'helper.decode_base58': _s_decode_base58,
    'ripemd.ripemd160': _s_ripemd160,
    'bech32.encode': _s_bech32_encode,
    'bech32.decode': _s_bech32_decode,
}
