#!/usr/bin/env python3
"""Development/evaluation helper (not a registered check).
  tools_seed.py harvest /tmp/seed/C10        verify a sub-agent's out/{A,B}.* and store them under /verif/seeded/
  tools_seed.py eval [name ...]              run every check against each stored seeded change (scratch copy of /repo)
Scratch copies live under $TMPDIR and are removed at once."""
import json, os, shutil, subprocess, sys, tempfile
from concurrent.futures import ThreadPoolExecutor

VERIF = os.path.dirname(os.path.abspath(__file__))
SEEDED = os.path.join(VERIF, 'seeded')
PIDS = ['C%02d' % i for i in range(1, 21)]


def scratch_repo():
    d = tempfile.mkdtemp(prefix='seedchk_')
    subprocess.run('git -C /repo archive HEAD | tar -x -C %s' % d, shell=True, check=True)
    return d


def run(cmd, cwd, timeout=900):
    r = subprocess.run(cmd, shell=True, cwd=cwd, capture_output=True, text=True, timeout=timeout)
    return r.returncode, (r.stdout + r.stderr)


def verify(patch, demo):
    d = scratch_repo()
    try:
        shutil.copy(demo, os.path.join(d, 'demo.py'))
        c0, o0 = run('/venv/bin/python demo.py', d)
        ca, oa = run('git apply --unsafe-paths --directory=%s %s' % (d, patch), '/')
        if ca != 0:
            ca, oa = run('patch -p1 < %s' % patch, d)
        ct, ot = run('/venv/bin/python -m pytest -q -p no:cacheprovider 2>&1 | tail -1', d)
        c1, o1 = run('/venv/bin/python demo.py', d)
        return {'applies': ca == 0, 'demo_exit_original': c0, 'demo_exit_changed': c1, 'tests_with_change': ot.strip(),
                'demo_tail_changed': o1.strip().splitlines()[-1:] }
    finally:
        shutil.rmtree(d, ignore_errors=True)


_SNAP = []


def checker_dir():
    """A private copy of the checker, taken once per run of this tool: the evaluation is not disturbed by edits made to
    /verif/sa while it runs."""
    if not _SNAP:
        import atexit
        d = tempfile.mkdtemp(prefix='verifsnap_')
        shutil.copytree(os.path.join(VERIF, 'sa'), os.path.join(d, 'sa'), ignore=shutil.ignore_patterns('__pycache__'))
        for f in ('vcheck', 'known_findings.json', 'claims.json', 'properties.jsonl'):
            shutil.copy(os.path.join(VERIF, f), os.path.join(d, f))
        os.makedirs(os.path.join(d, 'evidence'), exist_ok=True)
        atexit.register(shutil.rmtree, d, True)
        _SNAP.append(d)
    return _SNAP[0]


def evaluate(patch):
    d = scratch_repo()
    try:
        ca, oa = run('git apply --unsafe-paths --directory=%s %s' % (d, patch), '/')
        if ca != 0:
            run('patch -p1 < %s' % patch, d)
        env = 'VERIF_NO_EVIDENCE=1 VERIF_OUT=%s/out' % d
        res = {}

        def one(pid):
            c, o = run('%s ./vcheck %s --repo %s' % (env, pid, d), checker_dir())
            first = ''
            for line in o.splitlines():
                if line.startswith('  ') or line.startswith('ANALYSIS-ERROR'):
                    first = line.strip()[:260]
                    break
            return pid, c, first
        with ThreadPoolExecutor(max_workers=10) as ex:
            for pid, c, first in ex.map(one, PIDS):
                res[pid] = {'exit': c, 'first': first}
        return res
    finally:
        shutil.rmtree(d, ignore_errors=True)


def harvest(src):
    pid = os.path.basename(src.rstrip('/'))
    out = os.path.join(src, 'out')
    for x in ('A', 'B', 'C', 'D', 'E', 'F', 'G', 'H', 'I', 'J', 'K', 'L', 'M', 'N', 'O', 'P', 'Q', 'R', 'S', 'T', 'U', 'V', 'W'):
        patch, demo, meta = (os.path.join(out, '%s%s' % (x, s)) for s in ('.diff', '_demo.py', '_meta.json'))
        if not (os.path.exists(patch) and os.path.exists(demo)):
            continue
        v = verify(patch, demo)
        if not (v['applies'] and v['demo_exit_original'] == 0 and v['demo_exit_changed'] != 0):
            # demos that hard-wire their worktree path (e.g. CLI subprocess demos): verify in the worktree itself
            c0, _ = run('/venv/bin/python out/%s_demo.py' % x, src)
            ca, _ = run('git apply %s' % patch, src)
            ct, ot = run('/venv/bin/python -m pytest -q -p no:cacheprovider 2>&1 | tail -1', src)
            c1, o1 = run('/venv/bin/python out/%s_demo.py' % x, src)
            run('git checkout -- .', src)
            v = {'applies': ca == 0, 'demo_exit_original': c0, 'demo_exit_changed': c1, 'tests_with_change': ot.strip(),
                 'demo_tail_changed': o1.strip().splitlines()[-1:], 'verified_in': 'the sub-agent worktree (demo hard-wires its path)'}
        ok = v['applies'] and v['demo_exit_original'] == 0 and v['demo_exit_changed'] != 0 and v['tests_with_change'].startswith('1 failed, 124 passed')
        print(pid, x, 'CONFIRMED' if ok else 'REJECTED', v)
        if not ok:
            continue
        dst = os.path.join(SEEDED, '%s-%s' % (pid, x))
        os.makedirs(dst, exist_ok=True)
        shutil.copy(patch, os.path.join(dst, 'patch.diff'))
        shutil.copy(demo, os.path.join(dst, 'demo.py'))
        m = json.load(open(meta)) if os.path.exists(meta) else {}
        m.update({'property': pid, 'confirmed_by_me': v,
                  'what_i_ran': 'scratch copy of /repo HEAD: demo.py (exit 0) -> git apply patch.diff -> pytest (124 passed, 1 failed as baseline) -> demo.py (non-zero)'})
        json.dump(m, open(os.path.join(dst, 'meta.json'), 'w'), indent=1)


def benign(src):
    """Behaviour-preserving refactorings: every check must stay silent (exit 0)."""
    tag_ = os.path.basename(src.rstrip('/'))
    out = os.path.join(src, 'out')
    for fn in sorted(os.listdir(out)):
        if not fn.endswith('.diff'):
            continue
        patch = os.path.join(out, fn)
        d = scratch_repo()
        try:
            ca, oa = run('git apply --unsafe-paths --directory=%s %s' % (d, patch), '/')
            ct, ot = run('/venv/bin/python -m pytest -q -p no:cacheprovider 2>&1 | tail -1', d)
        finally:
            shutil.rmtree(d, ignore_errors=True)
        if ca != 0 or not ot.strip().startswith('1 failed, 124 passed'):
            print(tag_, fn, 'REJECTED (applies=%s, tests=%s)' % (ca == 0, ot.strip()))
            continue
        res = evaluate(patch)
        bad = {k: v for k, v in res.items() if v['exit'] != 0}
        name = '%s-%s' % (tag_, fn[:-5])
        dst = os.path.join(SEEDED, 'benign', name)
        os.makedirs(dst, exist_ok=True)
        shutil.copy(patch, os.path.join(dst, 'patch.diff'))
        note = os.path.join(out, fn[:-5] + '.txt')
        json.dump({'kind': 'behaviour-preserving refactoring', 'description': open(note).read() if os.path.exists(note) else '',
                   'tests_with_change': ot.strip(), 'checks_not_silent': {k: v for k, v in bad.items()}},
                  open(os.path.join(dst, 'meta.json'), 'w'), indent=1)
        print(name, 'SILENT' if not bad else 'ALARM ' + ', '.join('%s(exit %d)' % (k, v['exit']) for k, v in bad.items()))
        for k, v in bad.items():
            print('      ', k, v['first'][:230])


def eval_benign(names=None):
    base = os.path.join(SEEDED, 'benign')
    checker_dir()

    def one(n):
        patch = os.path.join(base, n, 'patch.diff')
        res = evaluate(patch)
        bad = {k: v for k, v in res.items() if v['exit'] != 0}
        mp = os.path.join(base, n, 'meta.json')
        m = json.load(open(mp)) if os.path.exists(mp) else {}
        m['checks_not_silent'] = bad
        json.dump(m, open(mp, 'w'), indent=1)
        return n, bad
    with ThreadPoolExecutor(max_workers=int(os.environ.get('SEED_JOBS', '3'))) as ex:
        for n, bad in ex.map(one, [x for x in sorted(os.listdir(base)) if not names or any(x == y or x.startswith(y + '-') for y in names)]):
            print(n, 'SILENT' if not bad else 'ALARM ' + ', '.join('%s(exit %d) %s' % (k, v['exit'], v['first'][:160]) for k, v in bad.items()), flush=True)


def main():
    if sys.argv[1] == 'eval-benign':
        return eval_benign(sys.argv[2:])
    if sys.argv[1] == 'benign':
        for s in sys.argv[2:]:
            benign(s)
        return
    if sys.argv[1] == 'harvest':
        for s in sys.argv[2:]:
            harvest(s)
    elif sys.argv[1] == 'eval':
        names = sys.argv[2:] or sorted(os.listdir(SEEDED))
        rows = []
        checker_dir()

        def one_seed(n):
            p = os.path.join(SEEDED, n, 'patch.diff')
            if not os.path.exists(p):
                return None
            res = evaluate(p)
            own = n.split('-')[0]
            det = [k for k, v in res.items() if v['exit'] == 1]
            und = [k for k, v in res.items() if v['exit'] == 2]
            mp = os.path.join(SEEDED, n, 'meta.json')
            m = json.load(open(mp)) if os.path.exists(mp) else {}
            m['detection'] = {'own_property_exit': res[own]['exit'], 'violated': det, 'undecided': und,
                              'first_report': {k: res[k]['first'] for k in det + und}}
            json.dump(m, open(mp, 'w'), indent=1)
            return n, own, res, det, und
        with ThreadPoolExecutor(max_workers=int(os.environ.get('SEED_JOBS', '3'))) as ex:
            for r in ex.map(one_seed, names):
                if r is None:
                    continue
                n, own, res, det, und = r
                print('%-8s own=%s exit=%d | violated by: %s | undecided: %s' % (n, own, res[own]['exit'], ','.join(det) or '-', ','.join(und) or '-'), flush=True)
                if res[own]['exit'] == 1:
                    print('         ', res[own]['first'][:200], flush=True)
                rows.append((n, res[own]['exit'], det, und))
        return rows


if __name__ == '__main__':
    main()
