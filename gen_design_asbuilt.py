#!/usr/bin/env python3
"""Injects, under each '### Cxx —' heading of DESIGN.md, the obligations the check actually evaluates (from evidence/*.json)."""
import json, os, re, collections
HERE = os.path.dirname(os.path.abspath(__file__))
p = os.path.join(HERE, 'DESIGN.md')
s = open(p).read()
for i in range(1, 21):
    pid = 'C%02d' % i
    ev = json.load(open(os.path.join(HERE, 'evidence', pid + '.json')))
    cnt = collections.OrderedDict()
    inst = collections.Counter()
    for sm in ev['coverage']['samples']:
        if sm['rule'] == 'LOADER.FLOOR':
            continue
        cnt[sm['rule']] = cnt.get(sm['rule'], 0) + 1
        inst[sm['rule']] += sm['rule_instances_evaluated']
    line = '*As built (generated from the last evidence run): %d obligations, %d rule instances — %s.*' % (
        ev['coverage']['obligations'], ev['coverage']['evaluations'],
        '; '.join('`%s` x%d (%d instances)' % (r, n, inst[r]) for r, n in cnt.items()))
    pat = re.compile(r'(### %s — [^\n]*\n)(\*As built \(generated[^\n]*\n)?' % pid)
    s, n = pat.subn(lambda m: m.group(1) + line + '\n', s, count=1)
    if n == 0:
        print('heading for', pid, 'not found')
open(p, 'w').write(s)
print('ok')
